/-
  M11 — expressions: the tree the grammar ladder (mapfile.lark: expression … atom) builds after `?`-inlining,
  the string builders of transformer.py (comparison / and_test / or_test / not_expression / expression /
  add … neg / func_call) at token level (`norm`) and at string level (`str`), the ladder itself as a
  derivation relation (`G`), and `re`, the tree the ladder derives from a normal form.
-/
import Mappy.Base

namespace Mappy.Expr

inductive BinOp where
  | add | sub | mul | div | pow
  deriving DecidableEq, Repr, Inhabited

/-- expression trees as Lark builds them (unary plus vanishes; NOT takes a comparison and is a value) -/
inductive E where
  | atom (s : Str)                       -- binding, number, string, regex, … (opaque operand text)
  | call (name : Str) (args : List Str)  -- func_call with operand arguments
  | paren (e : E)                        -- expression: "(" or_test ")"
  | neg (e : E)
  | bin (op : BinOp) (l r : E)
  | cmp (op : Str) (l r : E)
  | not (e : E)
  | and (l r : E)
  | or (l r : E)
  deriving DecidableEq, Repr, Inhabited

inductive Tk where
  | lp | rp | comma
  | atom (s : Str) | fn (s : Str) | cmp (s : Str)
  | add | sub | mul | div | pow | neg | not | and | or
  deriving DecidableEq, Repr, Inhabited

def BinOp.tk : BinOp → Tk
  | .add => .add | .sub => .sub | .mul => .mul | .div => .div | .pow => .pow

/-- ladder level at which a tree is produced: or 0, and 1, comparison 2, sum 3, product 4, unary 5, atom 6 -/
def E.lvl : E → Nat
  | .or _ _ => 0
  | .and _ _ => 1
  | .cmp _ _ _ => 2
  | .bin .add _ _ | .bin .sub _ _ => 3
  | .bin _ _ _ => 4
  | .neg _ => 5
  | _ => 6

/-- the level discipline of the ladder: left operand at the same level or tighter, right operand one
level tighter; NOT takes a comparison; unary minus a unary expression -/
def E.WF : E → Prop
  | .atom _ => True
  | .call _ args => args ≠ []
  | .paren e => e.WF
  | .neg e => e.WF ∧ 5 ≤ e.lvl
  | .bin op l r => l.WF ∧ r.WF ∧ (E.bin op l r).lvl ≤ l.lvl ∧ (E.bin op l r).lvl + 1 ≤ r.lvl
  | .cmp _ l r => l.WF ∧ r.WF ∧ 2 ≤ l.lvl ∧ 3 ≤ r.lvl
  | .not e => e.WF ∧ 2 ≤ e.lvl
  | .and l r => l.WF ∧ r.WF ∧ 1 ≤ l.lvl ∧ 2 ≤ r.lvl
  | .or l r => l.WF ∧ r.WF ∧ 0 ≤ l.lvl ∧ 1 ≤ r.lvl

/-- `depth` after scanning, `none` if a `)` has no partner -/
def scan : Nat → List Tk → Option Nat
  | d, [] => some d
  | d, .lp :: r => scan (d + 1) r
  | 0, .rp :: _ => none
  | d + 1, .rp :: r => scan d r
  | d, _ :: r => scan d r

/-- from depth `d ≥ 1`: does the group that is open at depth 1 close exactly at the last token? -/
def closesLast : Nat → List Tk → Bool
  | _, [] => false
  | d, .lp :: r => closesLast (d + 1) r
  | 0, .rp :: _ => false
  | 1, .rp :: r => r.isEmpty
  | d + 2, .rp :: r => closesLast (d + 1) r
  | d, _ :: r => closesLast d r

/-- `is_single_group` at token level: starts with `(` whose partner is the last token -/
def oneGroup : List Tk → Bool
  | .lp :: r => closesLast 1 r
  | _ => false

def commaSep : List Str → List Tk
  | [] => []
  | [a] => [.atom a]
  | a :: b :: r => .atom a :: .comma :: commaSep (b :: r)

/-- put a pair of parentheses around a token sequence -/
def wrap (a : List Tk) : List Tk := .lp :: a ++ [.rp]

/-- the token sequence of the string the transformer stores -/
def norm : E → List Tk
  | .atom s => [.atom s]
  | .call n args => wrap ([.fn n] ++ wrap (commaSep args))
  | .paren e => if oneGroup (norm e) then norm e else wrap (norm e)
  | .neg e => .neg :: norm e
  | .bin op l r => norm l ++ [op.tk] ++ norm r
  | .cmp op l r => wrap (norm l ++ [.cmp op] ++ norm r)
  | .not e => .not :: norm e
  | .and l r => wrap (norm l ++ [.and] ++ norm r)
  | .or l r => wrap (norm l ++ [.or] ++ norm r)

def opStr : BinOp → Str
  | .add => s%" + " | .sub => s%" - " | .mul => s%" * " | .div => s%" / " | .pow => s%" ^ "

def joinComma : List Str → Str
  | [] => []
  | [a] => a
  | a :: b :: r => a ++ [','] ++ joinComma (b :: r)

/-- the exact string the transformer stores (spacing as in transformer.py) -/
def str : E → Str
  | .atom s => s
  | .call n args => s%"(" ++ n ++ s%"(" ++ joinComma args ++ s%"))"
  | .paren e => if oneGroup (norm e) then str e else s%"(" ++ str e ++ s%")"
  | .neg e => if (str e).head? = some '-' then s%"- " ++ str e else '-' :: str e
  | .bin op l r => str l ++ opStr op ++ str r
  | .cmp op l r => s%"( " ++ str l ++ [' '] ++ op ++ [' '] ++ str r ++ s%" )"
  | .not e => s%"NOT " ++ str e
  | .and l r => s%"( " ++ str l ++ s%" AND " ++ str r ++ s%" )"
  | .or l r => s%"( " ++ str l ++ s%" OR " ++ str r ++ s%" )"

/-- the tree the ladder derives from `norm e` -/
def re : E → E
  | .atom s => .atom s
  | .call n args => .paren (.call n args)
  | .paren e => if oneGroup (norm e) then re e else .paren (re e)
  | .neg e => .neg (re e)
  | .bin op l r => .bin op (re l) (re r)
  | .cmp op l r => .paren (.cmp op (re l) (re r))
  | .not e => .not (re e)
  | .and l r => .paren (.and (re l) (re r))
  | .or l r => .paren (.or (re l) (re r))

/-- operator tree with explicit parentheses erased -/
def shape : E → E
  | .atom s => .atom s
  | .call n args => .call n args
  | .paren e => shape e
  | .neg e => .neg (shape e)
  | .bin op l r => .bin op (shape l) (shape r)
  | .cmp op l r => .cmp op (shape l) (shape r)
  | .not e => .not (shape e)
  | .and l r => .and (shape l) (shape r)
  | .or l r => .or (shape l) (shape r)

/-- operands and operator spellings in order (parentheses and commas aside) -/
def leaves : List Tk → List Tk := List.filter (fun t => t ≠ .lp ∧ t ≠ .rp)

/-- the grammar ladder as a derivation relation: `G n ts e` — the tokens `ts` are derived, at ladder
level `n` (0 or_test … 6 atom), as the tree `e` -/
inductive G : Nat → List Tk → E → Prop
  | lift (n : Nat) (ts : List Tk) (e : E) : G (n + 1) ts e → G n ts e              -- `?x: y | …` inlining
  | or (a b : List Tk) (l r : E) : G 0 a l → G 1 b r → G 0 (a ++ [.or] ++ b) (.or l r)
  | and (a b : List Tk) (l r : E) : G 1 a l → G 2 b r → G 1 (a ++ [.and] ++ b) (.and l r)
  | cmp (op : Str) (a b : List Tk) (l r : E) : G 2 a l → G 3 b r → G 2 (a ++ [.cmp op] ++ b) (.cmp op l r)
  | add (a b : List Tk) (l r : E) : G 3 a l → G 4 b r → G 3 (a ++ [.add] ++ b) (.bin .add l r)
  | sub (a b : List Tk) (l r : E) : G 3 a l → G 4 b r → G 3 (a ++ [.sub] ++ b) (.bin .sub l r)
  | mul (a b : List Tk) (l r : E) : G 4 a l → G 5 b r → G 4 (a ++ [.mul] ++ b) (.bin .mul l r)
  | div (a b : List Tk) (l r : E) : G 4 a l → G 5 b r → G 4 (a ++ [.div] ++ b) (.bin .div l r)
  | pow (a b : List Tk) (l r : E) : G 4 a l → G 5 b r → G 4 (a ++ [.pow] ++ b) (.bin .pow l r)
  | neg (a : List Tk) (e : E) : G 5 a e → G 5 (.neg :: a) (.neg e)
  | atom (s : Str) : G 6 [.atom s] (.atom s)
  | call (n : Str) (args : List Str) : args ≠ [] → G 6 ([.fn n] ++ wrap (commaSep args)) (.call n args)
  | paren (a : List Tk) (e : E) : G 0 a e → G 6 (wrap a) (.paren e)
  | not (a : List Tk) (e : E) : G 2 a e → G 6 (.not :: a) (.not e)

end Mappy.Expr
