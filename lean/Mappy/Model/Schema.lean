/-
  M4 — the part of JSON Schema Draft 4 the Mapfile schemas use, as an executable semantics
  `errs : schema → instance → list of (instance path, failing keyword)`.
  This is a *reference* for what jsonschema (third-party, not modelled) reports: keywords
  type enum minimum maximum exclusiveMinimum/Maximum(boolean form) minItems maxItems minLength maxLength pattern
  items(both forms) properties patternProperties additionalProperties required allOf anyOf oneOf $ref.
  The regular expressions of the schemas are named predicates (`Pat`), chosen by the translator.
  `fuel` bounds the nesting of sub-schema evaluation (the `$ref` graph is acyclic: C09_acyclic).
-/
import Mappy.Base
import Mappy.Model.DictUtils
import Mappy.Model.Versioning
import Mappy.Model.Cell

namespace Mappy.Schema
open DictUtils (PathEl)

/-- the regular expressions occurring in the schema files (`re.search` semantics: `$` also matches before one
trailing newline, `.` does not match a newline) -/
inductive Pat where
  | brackets | parens | slashes | hexHash | hexSingle | hexDouble | rectangle | ellipse | charRef | hidden
  | other (src : Str)
  deriving Repr, DecidableEq

def isHex (c : Char) : Bool := ('0' ≤ c && c ≤ '9') || ('a' ≤ c && c ≤ 'f') || ('A' ≤ c && c ≤ 'F')
def isLowerAZ (c : Char) : Bool := 'a' ≤ c && c ≤ 'z'
def isDigit (c : Char) : Bool := '0' ≤ c && c ≤ '9'

/-- `^O(.*?)C$` -/
def wrapped (o c : Char) (s : Str) : Bool :=
  match s with
  | h :: r => h = o && (match r.reverse with
      | l :: mid => l = c && !mid.contains '\n'
      | [] => false)
  | [] => false

def hexCount (s : Str) (ok : Nat → Bool) : Bool := s.all isHex && ok s.length

def patCore (p : Pat) (s : Str) : Bool :=
  match p with
  | .brackets => wrapped '[' ']' s
  | .parens => wrapped '(' ')' s
  | .slashes => wrapped '/' '/' s
  | .hexHash => (match s with | '#' :: r => hexCount r (fun n => n = 3 || n = 4 || (6 ≤ n && n ≤ 8)) | _ => false)
  | .hexSingle => (match s with
      | '\'' :: '#' :: r => (match r.reverse with | '\'' :: m => hexCount m (fun n => n = 3 || n = 6) | _ => false)
      | _ => false)
  | .hexDouble => (match s with
      | '"' :: '#' :: r => (match r.reverse with | '"' :: m => hexCount m (fun n => n = 3 || n = 6) | _ => false)
      | _ => false)
  | .rectangle => s = s%"rectangle"
  | .ellipse => s = s%"ellipse"
  | .charRef => (match s with
      | '&' :: '#' :: r => (match r.reverse with | ';' :: m => !m.isEmpty && m.all isDigit | _ => false)
      | _ => false)
  | .hidden => (match s with
      | '_' :: '_' :: r => (match r.reverse with | '_' :: '_' :: m => !m.isEmpty && m.all isLowerAZ | _ => false)
      | _ => false)
  | .other _ => false

/-- `re.search(pattern, s)` for the anchored patterns above -/
def patMatch (p : Pat) (s : Str) : Bool :=
  patCore p s || (match s.reverse with | '\n' :: r => patCore p r.reverse | _ => false)

/-! ### numbers -/

/-- a decimal lexeme as mantissa / 10^scale -/
def decOf (s : Str) : Option (Int × Nat) :=
  let (neg, u) := match s with | '-' :: r => (true, r) | _ => (false, s)
  match u.span (· ≠ '.') with
  | (ip, []) => (Versioning.parseNat ip).map fun n => (if neg then -(n : Int) else n, 0)
  | (ip, _ :: fp) =>
    match Versioning.parseNat ip, Versioning.parseNat fp with
    | some a, some b => some ((if neg then -1 else 1) * ((a : Int) * (10 ^ fp.length : Nat) + b), fp.length)
    | _, _ => none

def numOf : J → Option (Int × Nat)
  | .int n => some (n, 0)
  | .flt s => decOf s
  | _ => none

/-- a ≤ b on mantissa/scale pairs -/
def numLe (a b : Int × Nat) : Bool := a.1 * (10 ^ b.2 : Nat) ≤ b.1 * (10 ^ a.2 : Nat)
def numLt (a b : Int × Nat) : Bool := a.1 * (10 ^ b.2 : Nat) < b.1 * (10 ^ a.2 : Nat)
def numEq (a b : Int × Nat) : Bool := a.1 * (10 ^ b.2 : Nat) = b.1 * (10 ^ a.2 : Nat)

/-- jsonschema's `equal` for enum members: numbers by value, booleans only equal to booleans -/
def jEq (a b : J) : Bool :=
  match numOf a, numOf b with
  | some x, some y => numEq x y
  | _, _ => a == b

def typeOk (t : Str) (x : J) : Bool :=
  if t = s%"string" then (match x with | .str _ => true | _ => false)
  else if t = s%"number" then (match x with | .int _ => true | .flt _ => true | _ => false)
  else if t = s%"integer" then (match x with | .int _ => true | _ => false)
  else if t = s%"boolean" then (match x with | .bool _ => true | _ => false)
  else if t = s%"array" then (match x with | .list _ => true | _ => false)
  else if t = s%"object" then (match x with | .dict _ => true | _ => false)
  else if t = s%"null" then (match x with | .null => true | _ => false)
  else false

abbrev Err := List PathEl × Str

def patOf (pats : List (Str × Pat)) (src : Str) : Pat := (lookupS src pats).getD (.other src)

/-- keys of the instance that neither `properties` nor a `patternProperties` pattern covers -/
def extras (pats : List (Str × Pat)) (schema inst : Fields) : List Str :=
  let props := match lookup s%"properties" schema with | some (.dict p) => keys p | _ => []
  let pps := match lookup s%"patternProperties" schema with | some (.dict p) => keys p | _ => []
  (keys inst).filter fun k => !props.contains k && !pps.any fun p => patMatch (patOf pats p) k

structure Env where
  files : Fields
  pats : List (Str × Pat)

/-- `type`, `enum`, `minimum`, `maximum` -/
def scalarErrs (sch : Fields) (inst : J) (path : List PathEl) : List Err :=
  (match lookup s%"type" sch with
   | some (.str t) => if typeOk t inst then [] else [(path, s%"type")]
   | some (.list ts) =>      -- Draft 4: `type` may be a list of type names, any of which may fit
     if ts.any (fun t => match t with | .str t => typeOk t inst | _ => false) then [] else [(path, s%"type")]
   | _ => []) ++
  (match lookup s%"enum" sch with
   | some (.list vs) => if vs.any (jEq inst) then [] else [(path, s%"enum")]
   | _ => []) ++
  (match lookup s%"minimum" sch, numOf inst with
   | some m, some x =>
     (match numOf m with
      | some mv =>
        let excl := match lookup s%"exclusiveMinimum" sch with | some v => truthy v | none => false
        if (if excl then numLe x mv else numLt x mv) then [(path, s%"minimum")] else []
      | none => [])
   | _, _ => []) ++
  (match lookup s%"maximum" sch, numOf inst with
   | some m, some x =>
     (match numOf m with
      | some mv =>
        let excl := match lookup s%"exclusiveMaximum" sch with | some v => truthy v | none => false
        if (if excl then numLe mv x else numLt mv x) then [(path, s%"maximum")] else []
      | none => [])
   | _, _ => [])

/-- `minItems`, `maxItems`, `items` (both forms) -/
def arrErrs (rec : J → J → List PathEl → List Err) (sch : Fields) (xs : List J) (path : List PathEl) : List Err :=
  (match lookup s%"minItems" sch with | some (.int n) => if (xs.length : Int) < n then [(path, s%"minItems")] else [] | _ => []) ++
  (match lookup s%"maxItems" sch with | some (.int n) => if (xs.length : Int) > n then [(path, s%"maxItems")] else [] | _ => []) ++
  (match lookup s%"items" sch with
   | some (.dict it) => (xs.zipIdx.map fun (x, i) => rec (.dict it) x (path ++ [.idx i])).flatten
   | some (.list its) => ((xs.zip its).zipIdx.map fun ((x, s), i) => rec s x (path ++ [.idx i])).flatten
   | _ => [])

/-- `minLength`, `maxLength`, `pattern` -/
def strErrs (pats : List (Str × Pat)) (sch : Fields) (s : Str) (path : List PathEl) : List Err :=
  (match lookup s%"minLength" sch with | some (.int n) => if (s.length : Int) < n then [(path, s%"minLength")] else [] | _ => []) ++
  (match lookup s%"maxLength" sch with | some (.int n) => if (s.length : Int) > n then [(path, s%"maxLength")] else [] | _ => []) ++
  (match lookup s%"pattern" sch with | some (.str p) => if patMatch (patOf pats p) s then [] else [(path, s%"pattern")] | _ => [])

def propErrs (rec : J → J → List PathEl → List Err) (sch d : Fields) (path : List PathEl) : List Err :=
  match lookup s%"properties" sch with
  | some (.dict props) => (props.map fun (k, s) => match lookup k d with
      | some v => rec s v (path ++ [.key k]) | none => []).flatten
  | _ => []

def ppErrs (pats : List (Str × Pat)) (rec : J → J → List PathEl → List Err) (sch d : Fields) (path : List PathEl) : List Err :=
  match lookup s%"patternProperties" sch with
  | some (.dict pps) => (pps.map fun (p, s) => (d.map fun (k, v) =>
      if patMatch (patOf pats p) k then rec s v (path ++ [.key k]) else []).flatten).flatten
  | _ => []

def apErrs (pats : List (Str × Pat)) (rec : J → J → List PathEl → List Err) (sch d : Fields) (path : List PathEl) : List Err :=
  match lookup s%"additionalProperties" sch with
  | some (.bool false) => if (extras pats sch d).isEmpty then [] else [(path, s%"additionalProperties")]
  | some (.dict ap) => ((extras pats sch d).map fun k => match lookup k d with
      | some v => rec (.dict ap) v (path ++ [.key k]) | none => []).flatten
  | _ => []

def reqErrs (sch d : Fields) (path : List PathEl) : List Err :=
  match lookup s%"required" sch with
  | some (.list rs) => rs.filterMap fun r => match r with
      | .str k => if hasKey k d then none else some (path, s%"required") | _ => none
  | _ => []

/-- `properties`, `patternProperties`, `additionalProperties`, `required` -/
def objErrs (pats : List (Str × Pat)) (rec : J → J → List PathEl → List Err) (sch d : Fields) (path : List PathEl) : List Err :=
  propErrs rec sch d path ++ ppErrs pats rec sch d path ++ apErrs pats rec sch d path ++ reqErrs sch d path

/-- `allOf`, `anyOf`, `oneOf` -/
def combErrs (rec : J → J → List PathEl → List Err) (sch : Fields) (inst : J) (path : List PathEl) : List Err :=
  (match lookup s%"allOf" sch with
   | some (.list ss) => (ss.map fun s => rec s inst path).flatten
   | _ => []) ++
  (match lookup s%"anyOf" sch with
   | some (.list ss) => if ss.any (fun s => (rec s inst path).isEmpty) then [] else [(path, s%"anyOf")]
   | _ => []) ++
  (match lookup s%"oneOf" sch with
   | some (.list ss) => if (ss.filter fun s => (rec s inst path).isEmpty).length = 1 then [] else [(path, s%"oneOf")]
   | _ => [])

/-- errors of `inst` (at instance path `path`) against `schema` -/
def errs (env : Env) : Nat → J → J → List PathEl → List Err
  | 0, _, _, _ => []
  | fuel + 1, schema, inst, path =>
    match schema with
    | .dict sch =>
      match Versioning.refOfFields sch with
      | some u => (match lookup u env.files with | some s => errs env fuel s inst path | none => [(path, s%"$ref")])
      | none =>
        scalarErrs sch inst path ++
        (match inst with
         | .list xs => arrErrs (errs env fuel) sch xs path
         | .str s => strErrs env.pats sch s path
         | .dict d => objErrs env.pats (errs env fuel) sch d path
         | _ => []) ++
        combErrs (errs env fuel) sch inst path
    | _ => []

end Mappy.Schema
