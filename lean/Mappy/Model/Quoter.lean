/- M1 — model of mappyfile/quoter.py over code-point lists. -/
import Mappy.Base
namespace Mappy.Quoter

def altquote (q : Char) : Char := if q = '\'' then '"' else '\''
def addQuotes (q : Char) (s : Str) : Str := q :: s ++ [q]
/-- `val.startswith(char) and val.endswith(char)` (true for the one-character string `char`) -/
def inQuotesC (c : Char) (s : Str) : Bool := startsWith [c] s && endsWith [c] s
def inQuotes (q : Char) (s : Str) : Bool := inQuotesC q s || inQuotesC (altquote q) s
/-- `val[1:-1]` -/
def middle (s : Str) : Str := (s.drop 1).dropLast
def removeQuotes (q : Char) (s : Str) : Str := if inQuotes q s then middle s else s

/-- `.replace("\\" + q, q)` -/
def unesc (q : Char) : Str → Str
  | [] => []
  | [c] => [c]
  | c :: d :: r => if c = '\\' ∧ d = q then q :: unesc q r else c :: unesc q (d :: r)
/-- `.replace(q, "\\" + q)` -/
def esc (q : Char) : Str → Str
  | [] => []
  | c :: r => if c = q then '\\' :: q :: esc q r else c :: esc q r

def escapeQuotes (q : Char) (s : Str) : Str :=
  if inQuotesC q s then addQuotes q (esc q (unesc q (removeQuotes q s))) else s

def inBrackets (s : Str) : Bool := let s := strip s; startsWith ['['] s && endsWith [']'] s
def inParenthesis (s : Str) : Bool := let s := strip s; startsWith ['('] s && endsWith [')'] s
def inBraces (s : Str) : Bool := let s := strip s; startsWith ['{'] s && endsWith ['}'] s
def inSlashes (s : Str) : Bool :=
  let s := strip s
  (decide (s.length > 2) && startsWith ['/'] s && endsWith ['/', 'i'] s) || inQuotesC '/' s

def standardiseQuotes (q : Char) (s : Str) : Str :=
  let s := if inQuotesC (altquote q) s then addQuotes q (removeQuotes q s) else s
  escapeQuotes q s

end Mappy.Quoter
