/-
  M3 — model of mappyfile/dictutils.py: update, find, findall, findunique, findkey.
  `ci = true` models Mapfile dicts (CaseInsensitiveOrderedDict: keys matched and stored lower-case),
  `ci = false` plain dicts (exact keys).  Dicts created by `update` itself (`d1.get(k, {})`, the `{}` that
  replaces a missing list item) are plain dicts, so recursion into a fresh dict switches to `ci = false`.
  Python duck typing on type-incompatible arguments is answered by `.error .typeError`.
-/
import Mappy.Base
import Mappy.Model.CIDict

namespace Mappy.DictUtils

def delMark : Str := ['_','_','d','e','l','e','t','e','_','_']

/-- `d.get("__delete__", False)` is truthy -/
def delFlag (p : Fields) : Bool := truthy ((lookup delMark p).getD (.bool false))

/-- key normalisation of the dict class -/
def nk (ci : Bool) (k : Str) : Str := if ci then lower k else k

/-- `isinstance(li, (NoneType, dict))` -/
def isDictOrNone : J → Bool
  | .null => true
  | .dict _ => true
  | _ => false

/-- the final `else` branch of the loop: delete-marker string, or (conditional) assignment -/
def scalar (ow : Bool) (k' : Str) (v : J) (f1 : Fields) : Fields :=
  if hasKey k' f1 && v == .str delMark then delKey k' f1
  else if ow || !hasKey k' f1 then setKey k' v f1 else f1

mutual
/-- the `for k, v in d2.items()` loop of `update` (the root `__delete__` test is done by `update`) -/
def updFields (ci ow : Bool) (d1 : J) : Fields → Res J
  | [] => .ok d1
  | (k, v) :: r =>
    match d1 with
    | .dict f1 =>
      let k' := nk ci k
      match v with
      | .dict pv =>
        if delFlag pv then
          if hasKey k' f1 then updFields ci ow (.dict (delKey k' f1)) r else .error .keyError
        else
          match (match lookup k' f1 with
                 | some sub => updFields ci ow sub pv
                 | none => updFields false ow (.dict []) pv) with
          | .ok sub' => updFields ci ow (.dict (setKey k' sub' f1)) r
          | .error e => .error e
      | .list xs =>
        if xs.all isDictOrNone then
          match (match lookup k' f1 with
                 | some (.list os) => updList ci ow os xs
                 | some (.tup os) => updList ci ow os xs
                 | some _ => .error .typeError
                 | none => updList ci ow [] xs) with
          | .ok l => updFields ci ow (.dict (setKey k' (.list l) f1)) r
          | .error e => .error e
        else updFields ci ow (.dict (scalar ow k' v f1)) r
      | .tup xs =>
        if xs.all isDictOrNone then
          match (match lookup k' f1 with
                 | some (.list os) => updList ci ow os xs
                 | some (.tup os) => updList ci ow os xs
                 | some _ => .error .typeError
                 | none => updList ci ow [] xs) with
          | .ok l => updFields ci ow (.dict (setKey k' (.list l) f1)) r
          | .error e => .error e
        else updFields ci ow (.dict (scalar ow k' v f1)) r
      | _ => updFields ci ow (.dict (scalar ow k' v f1)) r
    | _ => .error .typeError
/-- the `zip_longest(orig_list, v)` loop: originals, then patch items (`None` = `{}`) -/
def updList (ci ow : Bool) : List J → List J → Res (List J)
  | os, [] => .ok (os.map fun o => match o with | .null => .dict [] | o => o)
  | [], n :: ns =>
    match n with
    | .dict pn =>
      if delFlag pn then updList ci ow [] ns
      else match updFields false ow (.dict []) pn with
        | .ok d => (match updList ci ow [] ns with | .ok l => .ok (d :: l) | .error e => .error e)
        | .error e => .error e
    | _ => match updList ci ow [] ns with | .ok l => .ok (.dict [] :: l) | .error e => .error e
  | o :: os, n :: ns =>
    match n with
    | .dict pn =>
      if delFlag pn then updList ci ow os ns
      else
        let o' : J := match o with | .null => .dict [] | o => o
        let ci' := match o with | .null => false | _ => ci
        match updFields ci' ow o' pn with
        | .ok d => (match updList ci ow os ns with | .ok l => .ok (d :: l) | .error e => .error e)
        | .error e => .error e
    | _ =>
      let o' : J := match o with | .null => .dict [] | o => o
      match updList ci ow os ns with | .ok l => .ok (o' :: l) | .error e => .error e
end

/-- merge of an object list: `d1.get(k, [])` zipped with the patch list -/
def listMerge (ci ow : Bool) (k' : Str) (f1 : Fields) (xs : List J) : Res (List J) :=
  match lookup k' f1 with
  | some (.list os) => updList ci ow os xs
  | some (.tup os) => updList ci ow os xs
  | some _ => .error .typeError
  | none => updList ci ow [] xs

/-- the effect of one patch entry `(k, v)` on the dict `f1` (one iteration of the loop) -/
def entry (ci ow : Bool) (k : Str) (v : J) (f1 : Fields) : Res Fields :=
  let k' := nk ci k
  match v with
  | .dict pv =>
    if delFlag pv then (if hasKey k' f1 then .ok (delKey k' f1) else .error .keyError)
    else (match lookup k' f1 with
          | some sub => updFields ci ow sub pv
          | none => updFields false ow (.dict []) pv).map (fun s => setKey k' s f1)
  | .list xs =>
    if xs.all isDictOrNone then (listMerge ci ow k' f1 xs).map (fun l => setKey k' (.list l) f1)
    else .ok (scalar ow k' v f1)
  | .tup xs =>
    if xs.all isDictOrNone then (listMerge ci ow k' f1 xs).map (fun l => setKey k' (.list l) f1)
    else .ok (scalar ow k' v f1)
  | _ => .ok (scalar ow k' v f1)

/-- `update(d1, d2, overwrite)`; the result is `d1` itself (mutated) unless the root delete fires. -/
def update (ci ow : Bool) (d1 : J) (d2 : Fields) : Res J :=
  if delFlag d2 then .ok (.dict []) else updFields ci ow d1 d2

/-! ### find helpers (after the `fix:` commits: items lacking the key are skipped, untouched) -/

/-- `key in item and item[key]` on a dict item -/
def itemGet (ci : Bool) (key : Str) : J → Res (Option J)
  | .dict f => .ok (lookup (nk ci (lower key)) f)
  | _ => .error .typeError

def find (ci : Bool) (key : Str) (value : J) : List J → Res J
  | [] => .ok .null
  | it :: r =>
    match itemGet ci key it with
    | .error e => .error e
    | .ok (some v) => if v == value then .ok it else find ci key value r
    | .ok none => find ci key value r

/-- the collection of admissible values: a list/tuple argument is a collection, anything else a singleton -/
def valuesOf : J → List J
  | .list vs => vs
  | .tup vs => vs
  | v => [v]

def findall (ci : Bool) (key : Str) (value : J) : List J → Res (List J)
  | [] => .ok []
  | it :: r =>
    match itemGet ci key it, findall ci key value r with
    | .error e, _ => .error e
    | _, .error e => .error e
    | .ok (some v), .ok l => if (valuesOf value).contains v then .ok (it :: l) else .ok l
    | .ok none, .ok l => .ok l

/-- order used by `sorted` on the value kinds the harness feeds (all ints or all strings) -/
def jle : J → J → Bool
  | .int a, .int b => a ≤ b
  | .str a, .str b => a ≤ b
  | _, _ => true

def ins (x : J) : List J → List J
  | [] => [x]
  | y :: ys => if jle x y then x :: y :: ys else y :: ins x ys

/-- add to a sorted set -/
def insertSorted (x : J) (l : List J) : List J := if l.contains x then l else ins x l

/-- `sorted(set(item.get(key) ...) - {None})` -/
def findunique (ci : Bool) (key : Str) : List J → Res (List J)
  | [] => .ok []
  | it :: r =>
    match itemGet ci key it, findunique ci key r with
    | .error e, _ => .error e
    | _, .error e => .error e
    | .ok (some .null), .ok l => .ok l
    | .ok (some v), .ok l => .ok (insertSorted v l)
    | .ok none, .ok l => .ok l

inductive PathEl where
  | key (k : Str) | idx (i : Int)
  deriving Repr

def pyIndex (xs : List J) (i : Int) : Option J :=
  if 0 ≤ i then xs[i.toNat]? else if i.natAbs ≤ xs.length then xs[xs.length - i.natAbs]? else none

/-- `findkey(d, *keys)` on existing paths (`d[k]` on a Mapfile dict auto-creates missing keys — outside
the documented use; the model answers KeyError there and the harness only asks existing paths). -/
def findkey (ci : Bool) : J → List PathEl → Res J
  | d, [] => .ok d
  | .dict f, .key k :: r =>
    match lookup (nk ci k) f with
    | some v => findkey ci v r
    | none => .error .keyError
  | .list xs, .idx i :: r =>
    match pyIndex xs i with
    | some v => findkey ci v r
    | none => .error .indexError
  | _, _ => .error .typeError

/-! ### purity of `find` on real Mapfile dict objects: thread the dict states of C17's model through the
search and show that none of them changes (the helper only uses `in` and, when present, `[]`). -/
def findSt (key : Str) (value : J) : List CIDict.St → Option Nat × List CIDict.St
  | [] => (none, [])
  | s :: r =>
    if CIDict.contains (lower key) s then
      match CIDict.getitem (lower key) s with
      | .ok (v, s') =>
        if v == value then (some 0, s' :: r)
        else let (i, r') := findSt key value r; (i.map (· + 1), s' :: r')
      | .error _ => (none, s :: r)
    else let (i, r') := findSt key value r; (i.map (· + 1), s :: r')

end Mappy.DictUtils
