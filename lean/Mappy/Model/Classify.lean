/-
  Definitions of the decidable classifier for the class of block trees covered by the composed C01 theorem
  (proofs: Props/C01Attr.lean, Props/C01Class.lean).  Kept apart from the proofs so that the driver can run it.
-/
import Mappy.Model.Transformer

namespace Mappy.RoundTrip
open Mappy Mappy.Transformer

/-- the tree Lark builds for `TYPE <children> END` -/
def blockTree (key : Tok) (children : List R) : R :=
  .tree s%"composite" none [.tree s%"composite_type" none [.tok key], .tree s%"composite_body" none children]


def typeOfF (sub : Fields) : Option Str :=
  match lookup s%"__type__" sub with
  | some (.str k) => some k
  | _ => none

def plainB (Rp : List Str) (k : Str) : Bool := k != s%"config" && !Rp.contains k


/-- the maximal run of blocks of type `t` at the head of the items -/
def takeRun (t : Str) : List R → List Fields × List R
  | .cdict sub :: r =>
    if typeOfF sub = some t then ((takeRun t r).1 |> (sub :: ·), (takeRun t r).2) else ([], .cdict sub :: r)
  | l => ([], l)


/-- the maximal run of lines of the repeated keyword `k` at the head of the items: their values and the rest -/
def takeLines (k : Str) : List R → List J × List R
  | .adict kvs :: r =>
    match attrParts kvs with
    | .ok (k', v, _) => if k' = k then ((takeLines k r).1 |> (v :: ·), (takeLines k r).2) else ([], .adict kvs :: r)
    | .error _ => ([], .adict kvs :: r)
  | l => ([], l)

/-- read the items of one level back into dictionary entries (fuel = number of items) -/
def readEntries (S Rp : List Str) : Nat → List R → Option Fields
  | _, [] => some []
  | 0, _ :: _ => none
  | n + 1, .adict kvs :: rest =>
    match attrParts kvs with
    | .ok (k, v, _) =>
      if plainB Rp k then (readEntries S Rp n rest).map ((k, v) :: ·)
      else if k != s%"config" && k != s%"points" && Rp.contains k then
        (readEntries S Rp n (takeLines k rest).2).map ((k, .list (v :: (takeLines k rest).1)) :: ·)
      else none
    | .error _ => none
  | n + 1, .cdict sub :: rest =>
    match typeOfF sub with
    | some t =>
      if underscored t then none
      else if S.contains t then (readEntries S Rp n rest).map ((t, .dict sub) :: ·)
      else (readEntries S Rp n (takeRun t rest).2).map ((plural t, .list ((sub :: (takeRun t rest).1).map .dict)) :: ·)
    | none => none
  | _ + 1, _ :: _ => none


/-- entries usable at one level: no entry named `__type__`, distinct keys -/
def levelOK (d : Fields) : Bool := d.all (fun kv => kv.1 != s%"__type__") && decide (keys d).Nodup


/-- is the tree `TYPE <children> END` as Lark builds it? -/
def asBlock : R → Option (Tok × List R)
  | .tree data none [.tree data2 none [.tok key], .tree data3 none children] =>
    if data = s%"composite" ∧ data2 = s%"composite_type" ∧ data3 = s%"composite_body" then some (key, children) else none
  | _ => none


/-- the items the children are read into: nested blocks by `f` (the classifier one level down), anything else by `mainT` -/
def classifyKids (cfg : Cfg) (f : R → Option Fields) : List R → Option (List R)
  | [] => some []
  | c :: rest =>
    match classifyKids cfg f rest with
    | none => none
    | some ritems =>
      match f c with
      | some sub => some (.cdict sub :: ritems)
      | none =>
        match mainT cfg c with
        | .ok item => some (item :: ritems)
        | .error _ => none

/-- the dictionary a block tree of the class was written from, if the tree is in the class (`fuel` bounds the nesting depth
that is looked at) -/
def classify (cfg : Cfg) : Nat → R → Option Fields
  | 0, _ => none
  | fuel + 1, t =>
    match asBlock t with
    | some (key, children) =>
      match valLower key, classifyKids cfg (classify cfg fuel) children with
      | .ok name, some items =>
        match readEntries Gen.singletonNames Gen.repeatedKeys items.length items with
        | some d => if levelOK d then some ((s%"__type__", .str name) :: d) else none
        | none => none
      | _, _ => none
    | none => none


end Mappy.RoundTrip
