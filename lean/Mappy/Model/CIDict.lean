/-
  M2 — model of mappyfile/ordereddict.py (DefaultOrderedDict + CaseInsensitiveOrderedDict), layered as
  the code is: C-level OrderedDict primitives on exact keys → DefaultOrderedDict.__getitem__/__missing__
  → the case-folding overrides → the C-level methods (`setdefault`, `update`, `__init__`) that call back
  into the overridden `__contains__/__getitem__/__setitem__` as CPython 3.12 does.
  Keys are strings (the code raises AttributeError for other keys); values are opaque `J`s.
-/
import Mappy.Base
import Mappy.Gen.Vocab

namespace Mappy.CIDict

/-- A dict object: the `default_factory` attribute (mappyfile only ever passes the class itself, or
nothing) and the C-level ordered storage. -/
structure St where
  factory : Bool
  items : Fields
  deriving Repr, DecidableEq, Inhabited

/-! ### C-level OrderedDict primitives (exact keys, never call back) -/
def odGet (k : Str) (s : St) : Option J := lookup k s.items
def odSet (k : Str) (v : J) (s : St) : St := { s with items := setKey k v s.items }
def odDel (k : Str) (s : St) : Res St :=
  if hasKey k s.items then .ok { s with items := delKey k s.items } else .error .keyError
def odContains (k : Str) (s : St) : Bool := hasKey k s.items

/-- `CaseInsensitiveOrderedDict._k` -/
def k_ (k : Str) : Str := lower k

/-! ### CaseInsensitiveOrderedDict overrides -/
def setitem (k : Str) (v : J) (s : St) : St := odSet (k_ k) v s
def contains (k : Str) (s : St) : Bool := odContains (k_ k) s
def delitem (k : Str) (s : St) : Res St := odDel (k_ k) s

/-- `DefaultOrderedDict.__missing__` (the key arrives lower-cased; `self[key] = value` goes through
the overridden `__setitem__`). The factory is the class itself, so `default_factory()` is an empty
factory-less dict. -/
def missing (k : Str) (s : St) : Res (J × St) :=
  if !s.factory then .error .keyError
  else if k ∈ Gen.objectListKeys then .ok (.list [], setitem k (.list []) s)
  else .ok (.dict [], setitem k (.dict []) s)

/-- `DefaultOrderedDict.__getitem__`: lower-cases (again), C-level lookup, `__missing__` on failure. -/
def defaultGetitem (k : Str) (s : St) : Res (J × St) :=
  let k := lower k
  match odGet k s with
  | some v => .ok (v, s)
  | none => missing k s

def getitem (k : Str) (s : St) : Res (J × St) := defaultGetitem (k_ k) s

/-- `dict.get`: C-level, no `__missing__`. -/
def get (k : Str) (dflt : J) (s : St) : J := (odGet (k_ k) s).getD dflt

/-- `OrderedDict.pop` (C, CPython 3.12): direct node removal, no call-backs. -/
def pop (k : Str) (dflt : Option J) (s : St) : Res (J × St) :=
  match odGet (k_ k) s with
  | some v => .ok (v, { s with items := delKey (k_ k) s.items })
  | none => match dflt with
    | some d => .ok (d, s)
    | none => .error .keyError

/-- `OrderedDict.setdefault` on a subclass: `key in od` → `od[key]` else `od[key] = default`,
all three through the overridden methods. -/
def setdefault (k : Str) (dflt : J) (s : St) : Res (J × St) :=
  let k := k_ k
  if contains k s then getitem k s else .ok (dflt, setitem k dflt s)

/-- `MutableMapping.update(self, pairs)` at C level: `self[k] = v` for each pair, through `__setitem__`. -/
def updatePairs (s : St) : Fields → St
  | [] => s
  | (k, v) :: r => updatePairs (setitem k v s) r

/-- `_convert_keys`: pop every key at C level and store it again through `__setitem__`. -/
def convStep (s : St) (k : Str) : St :=
  match odGet k s with
  | some v => setitem k v { s with items := delKey k s.items }
  | none => s
def convertKeys (s : St) : St := (keys s.items).foldl convStep s

/-- `CaseInsensitiveOrderedDict(default_factory?, pairs, **kw)`: `OrderedDict.__init__` updates the new
object through `__setitem__` (positional pairs first, then keywords), then `_convert_keys`. -/
def construct (factory : Bool) (e kw : Fields) : St :=
  convertKeys (updatePairs (updatePairs { factory := factory, items := [] } e) kw)

/-- `CaseInsensitiveOrderedDict.update(e, **f)`: two temporary dicts are built, each poured into `self`. -/
def update (e : Option Fields) (kw : Fields) (s : St) : St :=
  let s := match e with
    | some e => updatePairs s (construct true e []).items
    | none => s
  updatePairs s (construct true [] kw).items

/-- `__copy__`: `type(self)(self.default_factory, self)` -/
def copy (s : St) : St := construct s.factory s.items []
/-- `__deepcopy__`: `type(self)(self.default_factory, deepcopy(list(self.items())))` -/
def deepcopy (s : St) : St := construct s.factory s.items []
/-- pickle: `__reduce__` gives `(type, (factory,)|(), None, None, iter(items))`; unpickling calls the
class and then `obj[k] = v` for every item. -/
def pickleRoundtrip (s : St) : St := updatePairs (construct s.factory [] []) s.items

/-! ### Operations and the step function -/
inductive Op where
  | getitem (k : Str) | setitem (k : Str) (v : J) | delitem (k : Str) | contains (k : Str)
  | get (k : Str) (dflt : J) | pop (k : Str) (dflt : Option J) | setdefault (k : Str) (dflt : J)
  | update (e : Option Fields) (kw : Fields) | items | copy | deepcopy | pickle
  deriving Repr, Inhabited

inductive Out where
  | val (v : J) | bool (b : Bool) | unit | err (e : PyErr) | items (kvs : Fields)
  deriving Repr, DecidableEq, Inhabited

def step (s : St) : Op → St × Out
  | .getitem k => match getitem k s with
    | .ok (v, s') => (s', .val v) | .error e => (s, .err e)
  | .setitem k v => (setitem k v s, .unit)
  | .delitem k => match delitem k s with
    | .ok s' => (s', .unit) | .error e => (s, .err e)
  | .contains k => (s, .bool (contains k s))
  | .get k d => (s, .val (get k d s))
  | .pop k d => match pop k d s with
    | .ok (v, s') => (s', .val v) | .error e => (s, .err e)
  | .setdefault k d => match setdefault k d s with
    | .ok (v, s') => (s', .val v) | .error e => (s, .err e)
  | .update e kw => (update e kw s, .unit)
  | .items => (s, .items s.items)
  | .copy => (copy s, .items (copy s).items)
  | .deepcopy => (deepcopy s, .items (deepcopy s).items)
  | .pickle => (pickleRoundtrip s, .items (pickleRoundtrip s).items)

def run (s : St) : List Op → St × List Out
  | [] => (s, [])
  | op :: ops =>
    let (s', o) := step s op
    let (s'', os) := run s' ops
    (s'', o :: os)

/-! ### Specification: a plain insertion-ordered dict keyed by the lower-cased key -/
namespace Spec

/-- pour pairs into an ordered dict, keyed by lower-cased key -/
def pour (its : Fields) (ps : Fields) : Fields := ps.foldl (fun its p => setKey (lower p.1) p.2 its) its

def step (s : St) : Op → St × Out
  | .getitem k =>
    match lookup (lower k) s.items with
    | some v => (s, .val v)
    | none =>
      if !s.factory then (s, .err .keyError)
      else
        let d : J := if lower k ∈ Gen.objectListKeys then .list [] else .dict []
        ({ s with items := setKey (lower k) d s.items }, .val d)
  | .setitem k v => ({ s with items := setKey (lower k) v s.items }, .unit)
  | .delitem k =>
    if hasKey (lower k) s.items then ({ s with items := delKey (lower k) s.items }, .unit)
    else (s, .err .keyError)
  | .contains k => (s, .bool (hasKey (lower k) s.items))
  | .get k d => (s, .val ((lookup (lower k) s.items).getD d))
  | .pop k d =>
    match lookup (lower k) s.items with
    | some v => ({ s with items := delKey (lower k) s.items }, .val v)
    | none => match d with
      | some d => (s, .val d)
      | none => (s, .err .keyError)
  | .setdefault k d =>
    match lookup (lower k) s.items with
    | some v => (s, .val v)
    | none => ({ s with items := setKey (lower k) d s.items }, .val d)
  | .update e kw =>
    ({ s with items := pour (pour s.items (e.getD [])) kw }, .unit)
  | .items => (s, .items s.items)
  | .copy | .deepcopy | .pickle => (s, .items s.items)

def run (s : St) : List Op → St × List Out
  | [] => (s, [])
  | op :: ops =>
    let (s', o) := step s op
    let (s'', os) := run s' ops
    (s'', o :: os)

end Spec

/-- Representation invariant: stored keys are lower-case and pairwise distinct. -/
def Inv (s : St) : Prop := (∀ k ∈ keys s.items, lower k = k) ∧ (keys s.items).Nodup

end Mappy.CIDict
