/- Line-protocol dispatch: one JSON request per line in, one JSON answer per line out. -/
import Mappy.Wire
import Mappy.Model.CIDict
import Mappy.Model.DictUtils
import Mappy.Model.Printer
import Mappy.Model.Reload
import Mappy.Model.Create
import Mappy.Model.Includes
import Mappy.Model.Expr
import Mappy.Gen.Props
import Mappy.Model.Versioning
import Mappy.Gen.Schemas
import Mappy.Model.Transformer
import Mappy.Model.Validator
import Mappy.Model.Comments
import Mappy.Model.Schema
import Mappy.Gen.Patterns
import Mappy.Model.Cli
import Mappy.Model.Retype
import Mappy.Model.Classify
open Lean Mappy Mappy.Wire

namespace Mappy.Driver

/-! ### cidict -/
def optFields (j : Json) (k : String) : Except String (Option Fields) :=
  match j.getObjVal? k with
  | .ok .null => pure none
  | .ok _ => do pure (some (← getFields j k))
  | .error _ => pure none

def optJ (j : Json) (k : String) : Except String (Option J) :=
  match j.getObjVal? k with
  | .ok v => do pure (some (← toJ v))
  | .error _ => pure none

def decodeCIOp (j : Json) : Except String CIDict.Op := do
  let o ← getStr j "o"
  match l2s o with
  | "getitem" => pure (.getitem (← getStr j "k"))
  | "setitem" => pure (.setitem (← getStr j "k") (← getJ j "v"))
  | "delitem" => pure (.delitem (← getStr j "k"))
  | "contains" => pure (.contains (← getStr j "k"))
  | "get" => pure (.get (← getStr j "k") (← getJ j "d"))
  | "pop" => pure (.pop (← getStr j "k") (← optJ j "d"))
  | "setdefault" => pure (.setdefault (← getStr j "k") (← getJ j "d"))
  | "update" => pure (.update (← optFields j "e") ((← optFields j "kw").getD []))
  | "items" => pure .items
  | "copy" => pure .copy
  | "deepcopy" => pure .deepcopy
  | "pickle" => pure .pickle
  | x => throw s!"bad cidict op {x}"

def encodeCIOut : CIDict.Out → Json
  | .val v => Json.mkObj [("v", ofJ v)]
  | .bool b => Json.mkObj [("b", .bool b)]
  | .unit => .str "unit"
  | .err e => Json.mkObj [("err", .str e.name)]
  | .items kvs => Json.mkObj [("items", ofJ (.dict kvs))]

def cidict (req : Json) : Except String Json := do
  let f ← getBool req "factory"
  let e := (← optFields req "init").getD []
  let kw := (← optFields req "kw").getD []
  let ops ← (← getArr req "ops").mapM decodeCIOp
  let (s, outs) := CIDict.run (CIDict.construct f e kw) ops
  pure (Json.mkObj [("outs", .arr (outs.map encodeCIOut).toArray), ("final", ofJ (.dict s.items)),
                    ("factory", .bool s.factory)])

/-! ### dictutils -/
def resJ : Res J → Json := ofRes ofJ
def resL : Res (List J) → Json := ofRes (fun l => ofJ (.list l))

def getList (j : Json) (k : String) : Except String (List J) := do
  match ← getJ j k with
  | .list xs => pure xs
  | _ => throw s!"field {k} is not a list"

def decodePath (j : Json) (k : String) : Except String (List DictUtils.PathEl) := do
  (← getArr j k).mapM fun e =>
    match e with
    | .str s => pure (.key (s2l s))
    | .num n => pure (.idx n.mantissa)
    | _ => throw "bad path element"

/-! ### printer -/
def getChar (j : Json) (k : String) : Except String Char := do
  match ← getStr j k with
  | [c] => pure c
  | _ => throw s!"field {k} is not one character"

def getOpts (j : Json) : Except String Printer.Opts := do
  let o ← match j.getObjVal? "opts" with
    | .ok o => pure o
    | .error _ => throw "missing opts"
  pure { indent := ← getNat o "indent", spacer := ← getStr o "spacer", quote := ← getChar o "quote",
         newline := ← getStr o "newlinechar", endComment := ← getBool o "end_comment",
         align := ← getBool o "align_values", sepComplex := ← getBool o "separate_complex_types" }

def resS : Res Str → Json := ofRes (fun s => Json.str (l2s s))

def quoterOp (req : Json) : Except String Json := do
  let q ← getChar req "quote"
  let s ← getStr req "s"
  let b (x : Bool) : Json := .bool x
  let t (x : Str) : Json := .str (l2s x)
  match l2s (← getStr req "fn") with
  | "add_quotes" => pure (t (Quoter.addQuotes q s))
  | "add_altquotes" => pure (t (Quoter.addQuotes (Quoter.altquote q) s))
  | "in_quotes" => pure (b (Quoter.inQuotes q s))
  | "escape_quotes" => pure (t (Quoter.escapeQuotes q s))
  | "remove_quotes" => pure (t (Quoter.removeQuotes q s))
  | "in_brackets" => pure (b (Quoter.inBrackets s))
  | "in_parenthesis" => pure (b (Quoter.inParenthesis s))
  | "in_braces" => pure (b (Quoter.inBraces s))
  | "in_slashes" => pure (b (Quoter.inSlashes s))
  | "standardise_quotes" => pure (t (Quoter.standardiseQuotes q s))
  | x => throw s!"bad quoter fn {x}"

/-! ### includes -/
def pairsOf (j : Json) (k : String) : Except String (List (Str × Str)) := do
  (← getArr j k).mapM fun p =>
    match p with
    | .arr #[.str a, .str b] => pure (s2l a, s2l b)
    | _ => throw "bad pair"

def includesOp (req : Json) : Except String Json := do
  let files ← pairsOf req "files"
  let res ← pairsOf req "resolve"
  let fs : Str → Option Str := fun p => lookupS p files
  let resolve : Str → Str := fun n => (lookupS n res).getD (s2l "<unresolved>" ++ n)
  pure (resS (Includes.loadIncludes fs resolve (← getNat req "nested") (← getStr req "text")))

/-! ### expressions -/
partial def decodeE (j : Json) : Except String Expr.E := do
  let k ← getStr j "k"
  let sub (f : String) : Except String Expr.E := do
    match j.getObjVal? f with
    | .ok v => decodeE v
    | .error _ => throw s!"missing {f}"
  match l2s k with
  | "atom" => pure (.atom (← getStr j "s"))
  | "call" => do
    let args ← (← getArr j "args").mapM fun a => match a with
      | .str s => pure (s2l s)
      | _ => throw "bad arg"
    pure (.call (← getStr j "n") args)
  | "paren" => pure (.paren (← sub "e"))
  | "neg" => pure (.neg (← sub "e"))
  | "not" => pure (.not (← sub "e"))
  | "and" => pure (.and (← sub "l") (← sub "r"))
  | "or" => pure (.or (← sub "l") (← sub "r"))
  | "cmp" => pure (.cmp (← getStr j "op") (← sub "l") (← sub "r"))
  | "bin" => do
    let op ← match l2s (← getStr j "op") with
      | "add" => pure Expr.BinOp.add | "sub" => pure .sub | "mul" => pure .mul | "div" => pure .div | "pow" => pure .pow
      | x => throw s!"bad binop {x}"
    pure (.bin op (← sub "l") (← sub "r"))
  | x => throw s!"bad E kind {x}"

/-! ### version filter -/
def decodeVer (j : Json) : Except String (Option Versioning.Ver) :=
  match j.getObjVal? "ver" with
  | .ok .null => pure none
  | .ok v => do pure (some ⟨← getInt v "milli", ← getStr v "key"⟩)
  | .error _ => pure none

def decodeVOp (j : Json) : Except String Versioning.VOp := do
  match l2s (← getStr j "o") with
  | "expanded" => pure (.expanded (← getStr j "name") (← decodeVer j))
  | "versioned" => pure (.versioned (← getStr j "name") (← decodeVer j))
  | x => throw s!"bad vop {x}"

def vrunOp (req : Json) : Except String Json := do
  let ops ← (← getArr req "ops").mapM decodeVOp
  let fuel ← getNat req "fuel"
  let (as, _) := Versioning.vrun fuel Gen.files [] ops
  pure (.arr (as.map (ofRes ofJ)).toArray)

/-! ### transformer -/
def jOfJson (j : Json) : J :=
  match j with
  | .num n => if n.exponent = 0 then .int n.mantissa else .null
  | _ => .null

partial def decodeTree (j : Json) : Except String Transformer.R := do
  match j.getObjVal? "t" with
  | .ok (.str ty) =>
    let s ← getStr j "s"
    let l := match j.getObjVal? "l" with | .ok v => jOfJson v | _ => .null
    let c := match j.getObjVal? "c" with | .ok v => jOfJson v | _ => .null
    pure (.tok ⟨s2l ty, s, .str s, l, c⟩)
  | _ =>
    let data ← getStr j "n"
    let cm ← match j.getObjVal? "m" with
      | .ok (.arr a) => do
          let xs ← a.toList.mapM fun x => match x with | .str s => pure (s2l s) | _ => throw "bad comment"
          pure (some xs)
      | _ => pure none
    let cs ← (← getArr j "c").mapM decodeTree
    pure (.tree data cm cs)

def transformOp (req : Json) : Except String Json := do
  let floats ← pairsOf req "floats"
  let cfg : Transformer.Cfg := { pos := ← getBool req "pos", com := ← getBool req "com", floatOf := fun s => lookupS s floats }
  let tree ← decodeTree (← req.getObjVal? "tree")
  let shape := Json.bool (Transformer.shapeRootB (Transformer.canonize tree) && Transformer.shapeCRootB (Transformer.canonize tree))
  match Transformer.transform cfg tree with
  | .error e => pure (Json.mkObj [("err", .str e.name), ("shape", shape)])
  | .ok r =>
    match Transformer.resultJ r with
    | some v => pure (Json.mkObj [("ok", ofJ v), ("shape", shape)])
    | none => pure (Json.mkObj [("err", .str "UNSUPPORTED"), ("shape", shape)])

/-- `classify`: is the (real) tree of a printed document in the class of the composed C01 theorem, and with which
dictionary? -/
def classifyOp (req : Json) : Except String Json := do
  let floats ← pairsOf req "floats"
  let cfg : Transformer.Cfg := { pos := false, com := false, floatOf := fun s => lookupS s floats }
  let tree ← decodeTree (← req.getObjVal? "tree")
  -- a document is `start [composite …]`: classify each root block
  let roots : List Transformer.R := match tree with
    | .tree _ _ xs => xs
    | x => [x]
  let ds := roots.map (RoundTrip.classify cfg 64)
  if ds.all Option.isSome then
    pure (Json.mkObj [("in", .bool true), ("d", Json.arr (ds.filterMap (fun d => d.map (fun f => ofJ (.dict f)))).toArray)])
  else pure (Json.mkObj [("in", .bool false)])

/-! ### validator glue -/
def decodePathJ (j : Json) : Except String (List DictUtils.PathEl) := do
  match j with
  | .arr a => a.toList.mapM fun e =>
      match e with
      | .str s => pure (DictUtils.PathEl.key (s2l s))
      | .num n => pure (DictUtils.PathEl.idx n.mantissa)
      | _ => throw "bad path element"
  | _ => throw "bad path"

def messagesOp (req : Json) : Except String Json := do
  let root ← getJ req "root"
  let paths ← (← getArr req "paths").mapM decodePathJ
  let one (p : List DictUtils.PathEl) : Json :=
    match Validator.createMessage root p with
    | .error e => Json.mkObj [("err", .str e.name)]
    | .ok m =>
      match m.pos with
      | none => Json.mkObj [("key", .str (l2s m.key))]
      | some (l, c) => Json.mkObj [("key", .str (l2s m.key)), ("line", ofJ l), ("column", ofJ c)]
  pure (.arr (paths.map one).toArray)

/-! ### comment assignment -/
partial def decodeCT (j : Json) : Except String Comments.CT := do
  match j.getObjVal? "t" with
  | .ok _ => pure .tok
  | _ =>
    let data ← getStr j "n"
    let optNat (k : String) : Option Nat := match j.getObjVal? k with
      | .ok (.num n) => if n.exponent = 0 && n.mantissa ≥ 0 then some n.mantissa.toNat else none
      | _ => none
    let kids ← (← getArr j "c").mapM decodeCT
    pure (.node data (optNat "l") (optNat "e") none kids)

def assignOp (req : Json) : Except String Json := do
  let cs ← (← getArr req "comments").mapM fun p =>
    match p with
    | .arr #[.num n, .str s] => pure (n.mantissa.toNat, s2l s)
    | _ => throw "bad comment"
  let kids ← (← getArr req "kids").mapM decodeCT
  let (kids', rest) := Comments.assignKids (Comments.buildDict cs) kids
  let att := Comments.attachedL kids'
  pure (Json.mkObj [("attached", .arr (att.map fun l => Json.arr (l.map fun s => Json.str (l2s s)).toArray).toArray),
                    ("rest", .arr (rest.map fun c => Json.str (l2s c.2)).toArray)])

/-! ### Draft-4 subset -/
def encodePath (p : List DictUtils.PathEl) : Json :=
  .arr (p.map fun e => match e with | .key k => Json.str (l2s k) | .idx i => Json.num (JsonNumber.fromInt i)).toArray

def errsOp (req : Json) : Except String Json := do
  let name ← getStr req "schema"
  let inst ← getJ req "inst"
  let env : Schema.Env := ⟨Gen.files, Gen.patterns⟩
  match lookup (Versioning.fileOf name) Gen.files with
  | none => pure (Json.mkObj [("err", .str "IOError")])
  | some s =>
    let es := Schema.errs env 60 s inst []
    pure (.arr (es.map fun (p, k) => Json.arr #[encodePath p, .str (l2s k)]).toArray)

/-! ### command line -/
def cliOp (req : Json) : Except String Json := do
  let outs ← (← getArr req "outcomes").mapM fun o =>
    match o.getObjVal? "n" with
    | .ok (.num n) => pure (Cli.Outcome.msgs n.mantissa.toNat)
    | _ => pure Cli.Outcome.parseFail
  pure (Json.mkObj [("status", .num (JsonNumber.fromNat (Cli.osStatus (Cli.exitCode outs)))),
                    ("lines", .num (JsonNumber.fromNat (Cli.echoed outs))),
                    ("ok", .num (JsonNumber.fromNat (Cli.validatedOk outs)))])

def handle (op : String) (req : Json) : Except String Json := do
  match op with
  | "echo" => pure (ofJ (← getJ req "v"))
  | "cidict" => cidict req
  | "pp" => pure (resS (Printer.pprint (← getOpts req) Gen.props (← getJ req "d")))
  | "reload" => do
    let d ← getJ req "d"
    let sep := match getBool req "sep" with | .ok b => b | .error _ => false
    let d' : J := if sep then (match d with | .list xs => .list (xs.map Printer.sepRoot) | x => Printer.sepRoot x) else d
    pure (ofJ (Printer.normDoc Gen.props d'))
  | "format_value" =>
    match cellOf Gen.props (← getStr req "type") (← getStr req "attr") with
    | none => pure (Json.mkObj [("err", .str "IOError")])
    | some p => pure (resS (Printer.formatValue (← getChar req "quote") (← getStr req "attr") p (← getJ req "value")))
  | "quoter" => quoterOp req
  | "includes" => includesOp req
  | "exprnorm" => do
    let e ← decodeE (← (req.getObjVal? "e"))
    pure (Json.mkObj [("str", .str (l2s (Expr.str e))), ("fixpoint", .bool (Expr.str (Expr.re e) == Expr.str e))])
  | "include_name" => pure (match Includes.includeName (← getStr req "line") with
      | some n => Json.mkObj [("ok", .str (l2s n))]
      | none => Json.mkObj [("ok", .null)])
  | "update" => pure (resJ (DictUtils.update (← getBool req "ci") (← getBool req "ow") (← getJ req "d1") (← getFields req "d2")))
  | "find" => pure (resJ (DictUtils.find (← getBool req "ci") (← getStr req "key") (← getJ req "value") (← getList req "lst")))
  | "findall" => pure (resL (DictUtils.findall (← getBool req "ci") (← getStr req "key") (← getJ req "value") (← getList req "lst")))
  | "findunique" => pure (resL (DictUtils.findunique (← getBool req "ci") (← getStr req "key") (← getList req "lst")))
  | "findkey" => pure (resJ (DictUtils.findkey (← getBool req "ci") (← getJ req "d") (← decodePath req "path")))
  | "vrun" => vrunOp req
  | "create" => pure (ofRes (fun f => ofJ (.dict f)) (Create.create (← getNat req "fuel") Gen.files (← getStr req "type") (← decodeVer req)))
  | "transform" => transformOp req
  | "classify" => classifyOp req
  | "messages" => messagesOp req
  | "assign" => assignOp req
  | "errs" => errsOp req
  | "cli" => cliOp req
  | "retype" => do
    let prev := match req.getObjVal? "prev" with | .ok (.str s) => some (s2l s) | _ => none
    pure (Json.str (l2s (Retype.retype prev (← getStr req "type") (← getStr req "text"))))
  | "lowercase" => pure (ofJ (Validator.convertLowercase (← getJ req "v")))
  | "lower" => pure (Json.str (l2s (lower (← getStr req "s"))))
  | _ => throw s!"unknown op {op}"

def handleLine (line : String) : String :=
  match Json.parse line with
  | .error e => (Json.mkObj [("bad", .str s!"parse: {e}")]).compress
  | .ok req =>
    match req.getObjVal? "op" with
    | .ok (.str op) =>
      match handle op req with
      | .ok j => j.compress
      | .error e => (Json.mkObj [("bad", .str e)]).compress
    | _ => (Json.mkObj [("bad", .str "no op")]).compress

end Mappy.Driver
