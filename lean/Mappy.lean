import Mappy.Base
import Mappy.Driver
import Mappy.Props.C17
