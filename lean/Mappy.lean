import Mappy.Base
import Mappy.Driver
import Mappy.Props.C17
import Mappy.Props.C18
import Mappy.Props.C16
import Mappy.Props.C06
import Mappy.Props.C03
import Mappy.Props.C15
