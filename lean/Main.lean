import Mappy.Driver
open Mappy.Driver

partial def loop (hin : IO.FS.Stream) (hout : IO.FS.Stream) : IO Unit := do
  let line ← hin.getLine
  if line.isEmpty then return ()
  let t := line.trimAscii.toString
  if !t.isEmpty then
    hout.putStrLn (handleLine t)
  loop hin hout

def main : IO Unit := do
  let hin ← IO.getStdin
  let hout ← IO.getStdout
  loop hin hout
  hout.flush
